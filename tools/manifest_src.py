"""Source of MANIFEST.json (python3 tools/mkmanifest.py regenerates it)."""
from props import PROPS, LEVEL_TEXT

NOT_YET = "check not built yet in this round (work in progress; see DESIGN.md §8 for the order)"

NOT_APPLICABLE = {
    "C21": "reproducibility of two runs of one process is about hidden process state (hash iteration order, addresses); every Lean model is a function, so `same input => same output` is rfl for any model and no executable model can differ between two runs — nothing for a theorem or a correspondence check to say (DESIGN.md §5)",
}

ALL = ["C%02d" % i for i in range(1, 29)]


def checks():
    out = []
    for pid in ALL:
        if pid not in PROPS or pid not in LEVEL_TEXT:
            continue
        cat, text, ref, tech = LEVEL_TEXT[pid]
        out.append({
            "property_id": pid,
            "quick_cmd": f"./check {pid} --tier quick",
            "thorough_cmd": f"./check {pid} --tier thorough",
            "evidence_file": f"evidence/{pid}.json",
            "replay_cmd_template": f"./check {pid} --replay {{path}}",
            "engine": "capyv-lean",
            "level_claimed": {"category": cat, "text": text, "design_ref": ref},
            "level_note": "; ".join(PROPS[pid]["trusted_base"]),
            "technique": tech,
        })
    return out


def not_applicable():
    out = []
    for pid in ALL:
        if pid in PROPS and pid in LEVEL_TEXT:
            continue
        out.append({"property_id": pid, "reason": NOT_APPLICABLE.get(pid, NOT_YET)})
    return out


MANIFEST = {
    "version": 1,
    "setup_cmd": "./setup.sh",
    "hooks": {
        "guard": "capy_verif",
        "enable": "RUSTFLAGS='--cfg capy_verif' (set in harness/.cargo/config.toml; the harness crate has path dependencies on /repo/crates/* and is rebuilt by every check)",
        "baseline_off_cmd": "cd /repo && cargo nextest run --workspace --no-fail-fast --tool-config-file pb:/w/lib/nextest.toml --profile pb --test-threads 8 --offline  (fallback: cargo test --workspace --no-fail-fast --offline)",
        "source_commits": ["09b43ca (H1 codegen::verif)", "0a1ad0f (H2 parser::verif::parse_traced)", "fcaf8a2 (H3 topo::verif op log)"],
        "add_only": True,
    },
    "engines": [
        {"name": "capyv-lean", "path": "lean/",
         "serves_properties": [c for c in ALL if c in PROPS and c in LEVEL_TEXT],
         "kind_free_text": "Lean 4 project: executable models (CapyV/Model), property theorems (CapyV/Props), line-protocol driver `capyv`; Rust harness `harness/` (cvh) runs the real crates in-process against it; tools/gen.py regenerates table-shaped model parts from /repo"},
    ],
    "checks": checks(),
    "not_applicable": not_applicable(),
    "notes": "Every check: rebuilds the harness against /repo's working tree, regenerates tables, builds the property's Lean theorems, audits axioms, runs correspondence + independent oracle, triages against known_findings.json. exit 2 = infrastructure failure (no verdict).",
}
