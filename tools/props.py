"""Per-property configuration used by ./check (what to build, what is trusted)."""

TB_COMMON = [
    "Lean 4.33.0 kernel (re-checked by leanchecker in the thorough tier)",
    "axioms: at most propext, Classical.choice, Quot.sound (audited by #print axioms on every property theorem each run); no native_decide, no bv_decide, no own axioms, no sorry",
    "hand-written Lean model tied to /repo by the correspondence check of the Rust harness (path dependencies on /repo/crates/*, rebuilt every run)",
    "the harness (generators, canonicalisers, codecs), tools/gen.py and ./check",
]

PROPS = {
    "C25": {
        "lean_modules": ["CapyV.Props.C25"],
        "level": "proof",
        "trusted_base": TB_COMMON + [
            "std slice::partition_point contract (returns the size of the true prefix of a partitioned slice); its precondition is the theorem lineStarts_strictMono",
            "str::match_indices('\\n') yields exactly the byte indices of 0x0A",
            "modelled, not verified: Diagnostic::display / input_snippet only through the `--> at f:L:C` header (start_line+1, start_col+1)",
        ],
        "assumptions": [
            "offsets are <= text length (the property's quantifier)",
            "text shorter than 2^32 bytes (TextSize is u32)",
        ],
    },
    "C17": {
        "lean_modules": ["CapyV.Props.C17"],
        "level": "proof",
        "trusted_base": TB_COMMON + [
            "hook codegen::verif::layouts (calls calc_layouts and the GetLayoutInfo accessors unchanged)",
            "layout arithmetic modelled in Nat; the code uses u32 (stride_rounds_up carries the explicit no-overflow hypothesis size+align-1 < 2^32)",
            "well-formedness guard wf/okPw: integer widths {0,8,16,32,64,128,255}, float widths {0,32,64}, pointer widths {16,32,64} — the only ones the front end / Cranelift produce",
            "host gcc (thorough tier only) as the oracle for C struct offsets",
        ],
        "assumptions": [
            "types are well-formed (widths as above)",
            "the process-wide LAYOUTS table is used with a single pointer width per process (switching widths panics in calc_layouts; reachable only by compiling for two targets in one process, which the CLI never does)",
        ],
    },
}
