"""Per-property configuration used by ./check: one file per property under tools/reg/
(`PROP` = what to build / what is trusted, `LEVEL` = the MANIFEST level text)."""
import glob
import importlib.util
import os
import sys

_REG = os.path.join(os.path.dirname(os.path.abspath(__file__)), "reg")
sys.path.insert(0, _REG)
from common import TB_COMMON  # noqa: E402,F401

PROPS = {}
LEVEL_TEXT = {}
for _path in sorted(glob.glob(os.path.join(_REG, "C*.py"))):
    _pid = os.path.basename(_path)[:-3]
    _spec = importlib.util.spec_from_file_location("reg_" + _pid, _path)
    _mod = importlib.util.module_from_spec(_spec)
    _spec.loader.exec_module(_mod)
    PROPS[_pid] = _mod.PROP
    LEVEL_TEXT[_pid] = tuple(_mod.LEVEL)
