"""Per-property configuration used by ./check (what to build, what is trusted)."""

TB_COMMON = [
    "Lean 4.33.0 kernel (re-checked by leanchecker in the thorough tier)",
    "axioms: at most propext, Classical.choice, Quot.sound (audited by #print axioms on every property theorem each run); no native_decide, no bv_decide, no own axioms, no sorry",
    "hand-written Lean model tied to /repo by the correspondence check of the Rust harness (path dependencies on /repo/crates/*, rebuilt every run)",
    "the harness (generators, canonicalisers, codecs), tools/gen.py and ./check",
]

PROPS = {
    "C25": {
        "lean_modules": ["CapyV.Props.C25"],
        "level": "proof",
        "trusted_base": TB_COMMON + [
            "std slice::partition_point contract (returns the size of the true prefix of a partitioned slice); its precondition is the theorem lineStarts_strictMono",
            "str::match_indices('\\n') yields exactly the byte indices of 0x0A",
            "modelled, not verified: Diagnostic::display / input_snippet only through the `--> at f:L:C` header (start_line+1, start_col+1)",
        ],
        "assumptions": [
            "offsets are <= text length (the property's quantifier)",
            "text shorter than 2^32 bytes (TextSize is u32)",
        ],
    },
}
