#!/bin/sh
# tools/final_pass.sh: every quick check, then every thorough check, on the unchanged tree (seed 1);
# the summary lines go to corpus/reports/final_{quick,thorough}.log, from which tools/mkstatus.py
# regenerates the as-built table of DESIGN.md. Evidence files end up being those of the thorough runs
# followed by a last quick pass (what a reader of evidence/ expects to match `quick_cmd`).
cd "$(dirname "$0")/.."
mkdir -p corpus/reports
PROPS="C01 C02 C03 C04 C05 C06 C07 C08 C09 C10 C11 C12 C13 C14 C15 C16 C17 C18 C19 C20 C22 C23 C24 C25 C26 C27 C28"
: > corpus/reports/final_thorough.log
for p in $PROPS; do ./check $p --tier thorough --seed 1 2>&1 | grep -E "VIOLATION|KNOWN-FINDING|seed=1:" | cut -c1-400 >> corpus/reports/final_thorough.log; done
: > corpus/reports/final_quick.log
for p in $PROPS; do ./check $p --tier quick --seed 1 2>&1 | grep -E "VIOLATION|KNOWN-FINDING|seed=1:" | cut -c1-400 >> corpus/reports/final_quick.log; done
python3 tools/mkstatus.py > /dev/null
python3 tools/mkdesign.py
grep -c "exit 0" corpus/reports/final_quick.log corpus/reports/final_thorough.log
grep -E "VIOLATION|exit [12]" corpus/reports/final_quick.log corpus/reports/final_thorough.log
