#!/usr/bin/env python3
"""Rewrites the `As built` paragraph at the end of every per-property section of DESIGN.md from the
LEVEL text of tools/reg/Cxx.py (so that DESIGN.md, MANIFEST.json and the registrations say the same)."""
import re, importlib.util, sys, os, textwrap
ROOT = os.path.dirname(os.path.dirname(os.path.abspath(__file__)))
os.chdir(ROOT)
sys.path.insert(0, 'tools/reg'); sys.path.insert(0, 'tools')
s = open('DESIGN.md').read()
for f in sorted(os.listdir('tools/reg')):
    if not re.match(r"C\d\d\.py$", f):
        continue
    pid = f[:3]
    spec = importlib.util.spec_from_file_location(pid, 'tools/reg/' + f)
    mod = importlib.util.module_from_spec(spec); spec.loader.exec_module(mod)
    text = mod.LEVEL[1]
    m = re.search(r"### %s — [^\n]*\n" % pid, s)
    if not m:
        continue
    nxt = re.search(r"\n### ", s[m.end():])
    end = m.end() + (nxt.start() if nxt else len(s) - m.end())
    sect = s[m.end():end]
    marker = "* **As built (text of the registration, `tools/reg/%s.py`)**" % pid
    if marker in sect:
        sect = sect[:sect.index(marker)]
    wrapped = "\n".join(textwrap.wrap(marker + ": " + text, width=100, subsequent_indent="  "))
    sect = sect.rstrip("\n") + "\n" + wrapped + "\n"
    s = s[:m.end()] + sect + s[end:]
open('DESIGN.md', 'w').write(s)
