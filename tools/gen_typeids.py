"""Translator for C18 (type ids): regenerates lean/CapyV/Generated/TypeIds.lean from BOTH

* crates/codegen/src/convert.rs — the `*_DISCRIMINANT` constants, and the shifts / assert
  bounds of `simple_id_with_align` and `simple_id`, and
* core/src/meta.capy — the `*_discriminant` constants and the shifts / masks of the decoders
  (`size_of`, `align_of`, `get_type_info`).

Every pattern is anchored; every occurrence of a decoder idiom in meta.capy must be one of the
known shapes and all occurrences must agree, otherwise the generator raises (gen.py exits 1 and
./check reports the property as no longer shown). `theorem constants_agree` (Props/C18.lean)
is re-checked against the regenerated tables on every run."""
import os
import re


def num(tok):
    tok = tok.replace("_", "")
    if tok.startswith("0b"):
        return int(tok[2:], 2)
    if tok.startswith("0x"):
        return int(tok[2:], 16)
    return int(tok)


def one(pattern, text, what, flags=0):
    ms = re.findall(pattern, text, flags)
    if len(ms) != 1:
        raise ValueError(f"{what}: expected exactly one match of /{pattern}/, found {len(ms)}")
    return ms[0]


def same(pattern, text, what, at_least):
    ms = re.findall(pattern, text)
    if len(ms) < at_least:
        raise ValueError(f"{what}: expected at least {at_least} matches of /{pattern}/, found {len(ms)}")
    vals = {m if isinstance(m, str) else tuple(m) for m in ms}
    if len(vals) != 1:
        raise ValueError(f"{what}: occurrences disagree: {sorted(vals)}")
    return ms[0], len(ms)


def rust_side(src):
    consts = re.findall(r"^pub\(crate\) const ([A-Z_]+)_DISCRIMINANT: u32 = (\d+);$", src, re.M)
    if len(consts) < 20:
        raise ValueError(f"convert.rs: only {len(consts)} *_DISCRIMINANT constants found")
    # no other spelling of a discriminant constant may exist
    loose = re.findall(r"const\s+\w*DISCRIMINANT\w*\s*:", src)
    if len(loose) != len(consts):
        raise ValueError("convert.rs: a *_DISCRIMINANT constant does not have the anchored shape")
    m = re.search(r"\nfn simple_id_with_align\(discriminant: u32, size: u32, align: u32, signed: bool\) -> u32 \{\n(.*?)\n\}\n", src, re.S)
    if not m:
        raise ValueError("convert.rs: fn simple_id_with_align not found")
    body = m.group(1)
    lim_d = num(one(r"assert!\(discriminant < (0b[01]+)\);", body, "assert discriminant"))
    lim_s = num(one(r"assert!\(size < (0b[01]+)\);", body, "assert size"))
    lim_a = num(one(r"assert!\(align < (0b[01]+)\);", body, "assert align"))
    sh_d = num(one(r"let id = discriminant << (\d+);", body, "discriminant shift"))
    sh_a = num(one(r"let align = align << (\d+);", body, "align shift"))
    sh_s = num(one(r"let sign = \(signed as u32\) << (\d+);", body, "sign shift"))
    one(r"\n    (id \| sign \| align \| size)\n?$", "\n" + body, "final or")
    m = re.search(r"\nfn simple_id\(discriminant: u32, bit_width: u32, signed: bool\) -> u32 \{\n(.*?)\n\}\n", src, re.S)
    if not m:
        raise ValueError("convert.rs: fn simple_id not found")
    body = m.group(1)
    one(r"let size = bit_width / (8);", body, "simple_id size")
    lo, hi = one(r"let align = size\.clamp\((\d+), (\d+)\);", body, "simple_id clamp")
    one(r"(simple_id_with_align\(discriminant, bit_width / 8, align, signed\))", body, "simple_id tail call")
    # compound ids: `let id = X_DISCRIMINANT << 26;` … `id | list_id`
    (sh_c, n_c) = same(r"let id = [A-Z_]+_DISCRIMINANT << (\d+);", src, "compound id shift", 10)
    n_or = len(re.findall(r"\n\s+id \| list_id\n", src))
    if n_or != n_c:
        raise ValueError(f"convert.rs: {n_c} compound shifts but {n_or} `id | list_id`")
    return {
        "consts": [(n.lower(), int(v)) for n, v in consts],
        "lim_d": lim_d, "lim_s": lim_s, "lim_a": lim_a,
        "sh_d": sh_d, "sh_a": sh_a, "sh_s": sh_s, "sh_c": num(sh_c),
        "clamp_lo": int(lo), "clamp_hi": int(hi),
    }


def capy_side(src):
    consts = re.findall(r"^([a-z_]+)_discriminant : u8 : (\d+);$", src, re.M)
    if len(consts) < 20:
        raise ValueError(f"meta.capy: only {len(consts)} *_discriminant constants found")
    loose = re.findall(r"^\w+_discriminant\s*:", src, re.M)
    if len(loose) != len(consts):
        raise ValueError("meta.capy: a *_discriminant constant does not have the anchored shape")
    sh_d, n1 = same(r"(?:discriminant|discrim) := (?:ty|raw) >> (\d+);", src, "discriminant decoder", 3)
    simple_lim, _ = same(r"if discriminant < (\d+) \{", src, "simple/compound split", 2)
    size_mask = num(one(r"usize\.\(ty & (0b[01]+)\)", src, "size decoder (size_of)"))
    w_mask, _ = same(r"bit_width = u8\.\(\(raw & (0b[01]+)\) \* 8\)", src, "bit_width decoder", 2)
    a_sh, a_mask = one(r"usize\.\(\(ty >> (\d+)\) & (0b[01]+)\)", src, "align decoder")
    (s_sh, s_mask), _ = same(r"bool\.\(\(raw >> (\d+)\) & (\d+)\)", src, "sign/mutable decoder", 2)
    (i_mask, i_sh), n_idx = same(r"(?:index|idx) := (?:ty|raw) &~ \((0b[01]+) << (\d+)\);", src, "index decoder", 10)
    # every `>>` / `&~` in the file must be one of the shapes above (the unreachable message aside)
    n_shr = len(re.findall(r">>", src))
    if n_shr != n1 + 1 + 2:
        raise ValueError(f"meta.capy: {n_shr} occurrences of `>>`, expected {n1 + 3}")
    n_andnot = len(re.findall(r"&~", src))
    # + the two `&~ mask` of stride_of / the unreachable message
    if n_andnot != n_idx + 2:
        raise ValueError(f"meta.capy: {n_andnot} occurrences of `&~`, expected {n_idx + 2}")
    one(r"(mask := align_of\(ty\) - 1;\n    \(size_of\(ty\) \+ mask\) &~ mask)", src, "stride_of")
    # which compound kinds have a layout table / use the pointer layout (size_of and align_of)
    return {
        "consts": [(n, int(v)) for n, v in consts],
        "sh_d": num(sh_d), "simple_lim": int(simple_lim), "size_mask": size_mask,
        "width_mask": num(w_mask), "a_sh": int(a_sh), "a_mask": num(a_mask),
        "s_sh": int(s_sh), "s_mask": int(s_mask), "i_mask": num(i_mask), "i_sh": int(i_sh),
    }


def table(rows):
    return "[" + ", ".join(f'("{n}", {v})' for n, v in rows) + "]"


def generate(repo, emit):
    r = rust_side(open(os.path.join(repo, "crates/codegen/src/convert.rs")).read())
    c = capy_side(open(os.path.join(repo, "core/src/meta.capy")).read())
    out = []
    out.append("/-! GENERATED by tools/gen_typeids.py from crates/codegen/src/convert.rs and core/src/meta.capy.")
    out.append("Do not edit. -/")
    out.append("namespace CapyV.TypeIds")
    out.append("")
    out.append("namespace Rust")
    out.append("/-- the `*_DISCRIMINANT` constants of convert.rs, in source order (names lower-cased) -/")
    out.append(f"def table : List (String × Nat) := {table(r['consts'])}")
    for n, v in r["consts"]:
        out.append(f"def {n} : Nat := {v}")
    out.append(f"/-- `assert!(discriminant < …)`, `assert!(size < …)`, `assert!(align < …)` -/")
    out.append(f"def discLimit : Nat := {r['lim_d']}")
    out.append(f"def sizeLimit : Nat := {r['lim_s']}")
    out.append(f"def alignLimit : Nat := {r['lim_a']}")
    out.append(f"def discShift : Nat := {r['sh_d']}")
    out.append(f"def alignShift : Nat := {r['sh_a']}")
    out.append(f"def signShift : Nat := {r['sh_s']}")
    out.append(f"/-- `X_DISCRIMINANT << …` of the compound arms of `to_type_id` -/")
    out.append(f"def compoundShift : Nat := {r['sh_c']}")
    out.append(f"def clampLo : Nat := {r['clamp_lo']}")
    out.append(f"def clampHi : Nat := {r['clamp_hi']}")
    out.append("end Rust")
    out.append("")
    out.append("namespace Capy")
    out.append("/-- the `*_discriminant` constants of meta.capy, in source order -/")
    out.append(f"def table : List (String × Nat) := {table(c['consts'])}")
    for n, v in c["consts"]:
        out.append(f"def {n} : Nat := {v}")
    out.append(f"def discShift : Nat := {c['sh_d']}")
    out.append(f"/-- `if discriminant < …` : ids below are simple -/")
    out.append(f"def simpleLimit : Nat := {c['simple_lim']}")
    out.append(f"def sizeMask : Nat := {c['size_mask']}")
    out.append(f"def widthMask : Nat := {c['width_mask']}")
    out.append(f"def alignShift : Nat := {c['a_sh']}")
    out.append(f"def alignMask : Nat := {c['a_mask']}")
    out.append(f"def signShift : Nat := {c['s_sh']}")
    out.append(f"def signMask : Nat := {c['s_mask']}")
    out.append(f"/-- `&~ (indexMask << indexShift)` -/")
    out.append(f"def indexMask : Nat := {c['i_mask']}")
    out.append(f"def indexShift : Nat := {c['i_sh']}")
    out.append("end Capy")
    out.append("")
    out.append("end CapyV.TypeIds")
    emit("TypeIds.lean", "\n".join(out) + "\n")
