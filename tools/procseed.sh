#!/bin/bash
# tools/procseed.sh Cxx_N [check args]: confirm a seeded change delivered by an adversary agent in
# /tmp/seed_<id> (worktree /tmp/seedwt_<id>), save it under seeded/<id>/ and run the check on it.
id=$1; shift
p=${id%_*}
WT=/tmp/seedwt_$id; OUT=/tmp/seed_$id
echo "== $id: patch vs worktree"
(cd $WT && git diff > /tmp/cur_$id.diff; diff <(grep '^[+-]' /tmp/cur_$id.diff) <(grep '^[+-]' $OUT/patch.diff) >/dev/null && echo "patch matches worktree" || echo "PATCH DIFFERS")
echo "== test suite with the change"
(cd $WT && cargo nextest run --workspace --no-fail-fast --offline --test-threads 12 2>&1 | grep -E "Summary|FAIL" | head -5)
echo "== demo with the change"
bash $OUT/demo/run.sh $WT > /tmp/demo_w_$id.out 2>&1; echo "rc=$?"; tail -2 /tmp/demo_w_$id.out
echo "== demo without the change (/repo)"
bash $OUT/demo/run.sh /repo > /tmp/demo_wo_$id.out 2>&1; echo "rc=$?"; tail -1 /tmp/demo_wo_$id.out
mkdir -p /verif/seeded/$id
cp $OUT/patch.diff /verif/seeded/$id/; cp -r $OUT/demo /verif/seeded/$id/; cp $OUT/notes.md /verif/seeded/$id/ 2>/dev/null
echo "== check $p on the change"
/verif/tools/mutest.sh /verif/seeded/$id/patch.diff $p --seed 1 "$@" 2>&1 | grep -E "VIOLATION|exit|mutest rc"
