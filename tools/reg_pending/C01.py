"""Registration of C01 (loaded by tools/props.py)."""
from common import TB_COMMON

PROP = {
    "lean_modules": ["CapyV.Props.C01"],
    "level": "translation_validation",
    "needs_cli": True,
    "trusted_base": TB_COMMON + [
        "CapyV.Core (Spec/CapyCore.lean) IS the semantics: a fuel-bounded big-step interpreter written from the README and the property statements; left-to-right evaluation; by-value aggregates; faults abort; its own meta-theorems are in Props/C01.lean",
        "no Lean model of Cranelift code generation as a whole: the mechanisms that are modelled and proved are C03, C08, C10, C17, C22-C24; C01 itself is decided per generated program",
        "the generator (harness/src/core.rs) produces programs inside the fragment; a program on which the interpreter reports `stuck`/`out-of-fuel` is not compared (counted as not-compared)",
        "real capy CLI, gcc/ld, core.println and its integer formatting (core/src/fmt.capy)",
    ],
    "assumptions": [
        "fragment: integers of width 8-64, bool, arrays, structs, optionals, functions, while, labelled blocks, break/continue/return, defers, casts, #unwrap/#is_variant; not yet: slices, pointers, enums/switch, error unions and .try, lambdas, varargs, i128, char, floats",
        "bounds of the property: nesting <= 6, <= 12 globals, <= 40 statements per function, loops <= 64 iterations, no input",
    ],
}

# (category, text, design_ref, technique)
LEVEL = ("translation_validation",
         "Per generated well-typed program: built by the real CLI, run, and stdout + exit status (including the defined runtime faults) compared with the Lean reference interpreter CapyV.Core.run. The Lean theorems are meta-theorems of the reference semantics (value ranges, modular arithmetic, exit-status rule, store frame lemmas); the compiler's mechanisms are proved under their own properties. Partial by construction: a fragment of the language, a sample of programs.",
         "§4 C01",
         "translation validation against a Lean reference interpreter on type-directed generated programs")
