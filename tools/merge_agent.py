#!/usr/bin/env python3
"""tools/merge_agent.py <agent-copy-dir> <Cxx> [<Cyy> ...]
Copies the new files of an agent's private copy into /verif and performs the small
additive registry edits (Main.lean, CapyV.lean, harness main.rs, tools/reg, gen.py,
known_findings.json). Prints what it did; never overwrites an existing differing file
unless it is listed with --force <relpath>."""
import json, os, re, shutil, sys, filecmp, importlib.util, pprint

ROOT = os.path.dirname(os.path.dirname(os.path.abspath(__file__)))
src = sys.argv[1].rstrip("/")
pids = [a for a in sys.argv[2:] if re.fullmatch(r"C\d\d", a)]
force = set()
args = sys.argv[2:]
for i, a in enumerate(args):
    if a == "--force":
        force.add(args[i + 1])

def walk(base):
    for d, _, fs in os.walk(base):
        if any(x in d for x in ("/.build", "/.lake", "/.git", "/replays", "/evidence", "__pycache__")):
            continue
        for f in fs:
            yield os.path.relpath(os.path.join(d, f), base)

SHARED = {"lean/Main.lean", "lean/CapyV.lean", "harness/src/main.rs", "tools/props.py", "tools/manifest_src.py",
          "tools/gen.py", "known_findings.json", "MANIFEST.json", "harness/Cargo.toml", "harness/Cargo.lock"}
for rel in sorted(walk(src)):
    if rel in SHARED:
        continue
    a, b = os.path.join(src, rel), os.path.join(ROOT, rel)
    if not os.path.exists(b):
        os.makedirs(os.path.dirname(b), exist_ok=True)
        shutil.copy2(a, b)
        print("new   ", rel)
    elif not filecmp.cmp(a, b, shallow=False):
        if rel in force:
            shutil.copy2(a, b)
            print("FORCED", rel)
        else:
            print("DIFFER", rel, "(kept /verif's; use --force to take the agent's)")

def edit(path, fn):
    p = os.path.join(ROOT, path)
    s = open(p).read()
    t = fn(s)
    if t != s:
        open(p, "w").write(t)
        print("edited", path)

for pid in pids:
    low = pid.lower()
    def main_lean(s):
        if f"import CapyV.Driver.{pid}\n" not in s and os.path.exists(os.path.join(ROOT, f"lean/CapyV/Driver/{pid}.lean")):
            s = s.replace("open CapyV.Driver", f"import CapyV.Driver.{pid}\nopen CapyV.Driver", 1)
            s = s.replace('  | _ => "bad-op"\n', f'  | "{pid}" :: args => {low} args\n  | _ => "bad-op"\n', 1)
        return s
    edit("lean/Main.lean", main_lean)
    def capyv(s):
        line = f"import CapyV.Props.{pid}\n"
        return s if line in s else s + line
    edit("lean/CapyV.lean", capyv)
    def main_rs(s):
        if f"mod {low};" not in s and os.path.exists(os.path.join(ROOT, f"harness/src/{low}.rs")):
            s = s.replace("mod lean;", f"mod {low};\nmod lean;", 1)
            s = s.replace('                _ => "replay not implemented for this property".to_string(),',
                          f'                "{pid}" => {low}::replay(&f["input"]),\n                _ => "replay not implemented for this property".to_string(),', 1)
            s = s.replace('        _ => {\n            eprintln!("unknown property {prop}");',
                          f'        "{pid}" => {low}::run(&tier, seed, widen),\n        _ => {{\n            eprintln!("unknown property {{prop}}");', 1)
        return s
    edit("harness/src/main.rs", main_rs)
    # registration: from the agent's old-style props.py / manifest_src.py, or a reg file
    reg = os.path.join(ROOT, "tools", "reg", pid + ".py")
    if not os.path.exists(reg):
        sys.path.insert(0, os.path.join(src, "tools"))
        for m in ("props", "manifest_src", "common"):
            sys.modules.pop(m, None)
        try:
            props = __import__("props")
            ms = __import__("manifest_src")
            prop = props.PROPS[pid]
            level = getattr(ms, "LEVEL_TEXT", getattr(props, "LEVEL_TEXT", {}))[pid]
            tbc = props.TB_COMMON
            tb = [x for x in prop["trusted_base"] if x not in tbc]
            with open(reg, "w") as f:
                f.write(f'"""Registration of {pid} (loaded by tools/props.py)."""\nfrom common import TB_COMMON\n\nPROP = {{\n')
                for k, v in prop.items():
                    if k == "trusted_base":
                        f.write('    "trusted_base": TB_COMMON + ' + pprint.pformat(tb, width=110, indent=4) + ",\n")
                    else:
                        f.write(f"    {k!r}: " + pprint.pformat(v, width=110, indent=4) + ",\n")
                f.write("}\n\n# (category, text, design_ref, technique)\nLEVEL = " + pprint.pformat(tuple(level), width=110) + "\n")
            print("new    tools/reg/" + pid + ".py")
        except Exception as e:
            print("!! could not derive registration for", pid, ":", e)
        sys.path.pop(0)

# generators
ag = os.path.join(src, "tools", "gen.py")
if os.path.exists(ag):
    m = re.search(r"GENERATORS = \[(.*?)\]", open(ag).read(), re.S)
    mods = re.findall(r'"(\w+)"', m.group(1)) if m else []
    def gen(s):
        m2 = re.search(r"GENERATORS = \[(.*?)\]", s, re.S)
        cur = re.findall(r'"(\w+)"', m2.group(1))
        allm = cur + [x for x in mods if x not in cur]
        return s[:m2.start()] + "GENERATORS = [" + ", ".join(f'"{x}"' for x in allm) + "]" + s[m2.end():]
    edit("tools/gen.py", gen)

# known findings
ak = os.path.join(src, "known_findings.json")
if os.path.exists(ak):
    theirs = json.load(open(ak))["findings"]
    mine_p = os.path.join(ROOT, "known_findings.json")
    mine = json.load(open(mine_p))
    keys = {(f["property"], f["label"]) for f in mine["findings"]}
    added = 0
    for f in theirs:
        if (f["property"], f["label"]) not in keys:
            mine["findings"].append(f)
            added += 1
    if added:
        json.dump(mine, open(mine_p, "w"), indent=1, ensure_ascii=False)
        print(f"known_findings.json: +{added}")

# Cargo.toml
a, b = os.path.join(src, "harness/Cargo.toml"), os.path.join(ROOT, "harness/Cargo.toml")
la = [l for l in open(a).read().splitlines() if l not in open(b).read().splitlines()]
if la:
    print("!! harness/Cargo.toml lines only in the agent's copy:", la)
