#!/usr/bin/env python3
"""Writes the as-built summary table of DESIGN.md (between `<!-- status-table-begin -->` and
`<!-- status-table-end -->`) from MANIFEST.json, the Lean sources (transitive imports of each
property's theorem modules), corpus/reports/final_{quick,thorough}.log (the summary lines ./check
prints) and seeded/*/meta.json."""
import json, os, re, glob
ROOT = os.path.dirname(os.path.dirname(os.path.abspath(__file__)))
os.chdir(ROOT)
import sys
sys.path.insert(0, 'tools')
from props import PROPS  # noqa

LEAN = os.path.join(ROOT, 'lean')


def closure(mods):
    seen, todo = set(), list(mods)
    while todo:
        m = todo.pop()
        if m in seen or not m.startswith('CapyV'):
            continue
        path = os.path.join(LEAN, m.replace('.', '/') + '.lean')
        if not os.path.exists(path):
            continue
        seen.add(m)
        for line in open(path):
            mm = re.match(r'\s*import\s+(CapyV[\w.]*)', line)
            if mm:
                todo.append(mm.group(1))
    return seen


def lines_of(mods, kinds):
    n = 0
    for m in mods:
        if any(('.' + k + '.') in m for k in kinds):
            n += sum(1 for _ in open(os.path.join(LEAN, m.replace('.', '/') + '.lean')))
    return n


def parse_log(path):
    out = {}
    if not os.path.exists(path):
        return out
    for line in open(path):
        m = re.match(r'(C\d\d) (\w+) seed=\d+: obligations (\d+)/(\d+), (\d+) cases \((\d+) distinct non-trivial\), '
                     r'model-disagreements (\d+), oracle-failures (\d+), ([\d.]+)s -> exit (\d)', line)
        if m:
            out[m.group(1)] = dict(obl=m.group(3) + '/' + m.group(4), cases=int(m.group(5)), wall=float(m.group(9)),
                                   known=int(m.group(8)), rc=m.group(10))
    return out


quick = parse_log('corpus/reports/final_quick.log')
thor = parse_log('corpus/reports/final_thorough.log')
seeds = {}
for f in sorted(glob.glob('seeded/*/meta.json')):
    m = json.load(open(f))
    sid = os.path.basename(os.path.dirname(f))
    seeds.setdefault(m['property'], []).append((sid, m.get('initially_missed')))
manifest = json.load(open('MANIFEST.json'))
levels = {c['property_id']: c.get('level_claimed', {}).get('category', '?') for c in manifest.get('checks', [])}


def fmt_cases(n):
    return f'{n:,}'.replace(',', ' ')


rows = ['| id | level | Lean model+spec / proofs+props (lines) | theorems | quick: cases, wall | thorough: cases, wall | seeded changes |',
        '|---|---|---|---|---|---|---|']
for pid in sorted(PROPS):
    cfg = PROPS[pid]
    mods = closure(cfg['lean_modules'])
    model = lines_of(mods, ['Model', 'Spec', 'Generated'])
    proofs = lines_of(mods, ['Proofs', 'Props'])
    q, t = quick.get(pid), thor.get(pid)
    qs = f"{fmt_cases(q['cases'])}, {q['wall']:.0f} s" if q else '—'
    ts = f"{fmt_cases(t['cases'])}, {t['wall']:.0f} s" if t else '—'
    obl = (q or t or {}).get('obl', '?')
    sd = seeds.get(pid, [])
    sds = ', '.join(f"{s}{' (after strengthening)' if missed else ''}" for s, missed in sd) or '—'
    rows.append(f"| {pid} | {levels.get(pid, cfg.get('level', '?'))} | {model} / {proofs} | {obl} | {qs} | {ts} | {sds} |")
table = '\n'.join(rows)
n_seeds = sum(len(v) for v in seeds.values())
n_missed = sum(1 for v in seeds.values() for (_, missed) in v if missed)
stats = (f"**Seeded-change campaign in numbers**: {n_seeds} changes by independent sub-agents over "
         f"{len(seeds)} properties (each compiles, passes all 690 tests unedited, has a failing demo); "
         f"{n_seeds - n_missed} were reported by the check as it stood when the change arrived, {n_missed} were missed at first "
         f"and each of those led to a new generator family, model or obligation (marked *after strengthening* in the table above); "
         f"all {n_seeds} are reported now. The side observations the agents made on the unmodified compiler led to "
         f"further `fix:` commits (see the table of fixes).")
s = open('DESIGN.md').read()
b, e = '<!-- status-table-begin -->', '<!-- status-table-end -->'
if b in s and e in s:
    s = s[:s.index(b) + len(b)] + '\n' + table + '\n' + s[s.index(e):]
    open('DESIGN.md', 'w').write(s)
b2, e2 = '<!-- seed-stats-begin -->', '<!-- seed-stats-end -->'
s = open('DESIGN.md').read()
if b2 in s and e2 in s:
    s = s[:s.index(b2) + len(b2)] + '\n' + stats + '\n' + s[s.index(e2):]
    open('DESIGN.md', 'w').write(s)
print(table)
