#!/usr/bin/env python3
import json, sys, os
ROOT = os.path.dirname(os.path.dirname(os.path.abspath(__file__)))
pid = sys.argv[1]
extra = sys.argv[2] if len(sys.argv) > 2 else ""
for l in open(os.path.join(ROOT, "properties.jsonl")):
    p = json.loads(l)
    if p["id"] == pid:
        break
ptext = f"{p['title']}\n{p['statement']}\nQuantifier: {p['quantifier']['text']}"
t = open(os.path.join(ROOT, "tools", "agent_prompt.txt")).read()
print(t.replace("{PID}", pid).replace("{pid}", pid.lower()).replace("{PTEXT}", ptext).replace("{EXTRA}", extra))
