#!/usr/bin/env python3
"""Translator: regenerates the table-shaped parts of the Lean model from /repo on every
run (lean/CapyV/Generated/*.lean). Fails loudly (exit 1) when an anchored pattern no
longer matches the source. A file is rewritten only when its content changes, so an
unchanged source does not trigger a Lean rebuild."""
import os
import sys

ROOT = os.path.dirname(os.path.dirname(os.path.abspath(__file__)))
REPO = os.environ.get("CAPY_REPO", "/repo")
GEN = os.path.join(ROOT, "lean", "CapyV", "Generated")


def emit(name, text):
    path = os.path.join(GEN, name)
    old = open(path).read() if os.path.exists(path) else None
    if old != text:
        with open(path, "w") as f:
            f.write(text)


def main():
    """Prints one line `GEN <module> ok|FAILED <message>` per translator module (read by ./check);
    a module that fails leaves its output file as it was (the last tables that did translate)."""
    os.makedirs(GEN, exist_ok=True)
    import importlib
    ok = True
    for mod in GENERATORS:
        try:
            importlib.import_module(mod).generate(REPO, emit)
            print(f"GEN {mod} ok")
        except Exception as e:  # noqa
            ok = False
            msg = f"{type(e).__name__}: {e}".replace("\n", " ")
            print(f"GEN {mod} FAILED {msg}")
            print(f"gen.py: {mod}: {msg}", file=sys.stderr)
    return 0 if ok else 1


GENERATORS = ["gen_tokens", "gen_parser_loops", "gen_bp", "gen_literals", "gen_typeids"]

# translator module -> the Lean modules it writes, and whether the facts it extracts are also
# decided by the property's correspondence check (then a translator that can no longer read the
# source falls back to the last translated tables and the correspondence alone ties model to code)
OUTPUTS = {
    "gen_tokens": (["CapyV.Generated.Tokens"], True),
    "gen_parser_loops": (["CapyV.Generated.ParserLoops"], False),
    "gen_bp": (["CapyV.Generated.BindingPowers"], True),
    "gen_literals": (["CapyV.Generated.Escapes", "CapyV.Generated.IntLimits"], True),
    "gen_typeids": (["CapyV.Generated.TypeIds"], True),
}

if __name__ == "__main__":
    sys.path.insert(0, os.path.dirname(os.path.abspath(__file__)))
    sys.exit(main())
