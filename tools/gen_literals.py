"""Translator for C09 (literals): regenerates from the Rust source

* lean/CapyV/Generated/Escapes.lean   — the escape-character `match` of `lower_string_literal`
  and of `lower_char_literal` (crates/hir/src/body.rs), as two functions Char → Option Nat,
* lean/CapyV/Generated/IntLimits.lean — the table of `Ty::get_max_int_size`
  (crates/hir/src/common/ty.rs), the two widening arms of `reinfer_expr` for weak integer
  literals (crates/hir_ty/src/globals.rs), the weak-integer arms of `calc_single` /
  `finalize_int` (crates/codegen/src/convert.rs) and the literal regexes of tokenizer.txt.

Every pattern is anchored; when the source shape changes the generator raises (gen.py then
exits 1 and ./check reports the property as no longer shown)."""
import os
import re

RUST_CHAR = {
    r"'\0'": 0, r"'\n'": 10, r"'\r'": 13, r"'\t'": 9, r"'\\'": 92, r"'\''": 39, "'\"'": 34,
}

CONSTS = {
    "i8::MAX": 2**7 - 1, "i16::MAX": 2**15 - 1, "i32::MAX": 2**31 - 1, "i64::MAX": 2**63 - 1,
    "u8::MAX": 2**8 - 1, "u16::MAX": 2**16 - 1, "u32::MAX": 2**32 - 1, "u64::MAX": 2**64 - 1,
}


def rust_char(tok):
    """value of a Rust char literal token"""
    if tok in RUST_CHAR:
        return RUST_CHAR[tok]
    m = re.fullmatch(r"'\\x([0-9A-Fa-f]{2})'", tok)
    if m:
        return int(m.group(1), 16)
    m = re.fullmatch(r"'([^\\'])'", tok)
    if m:
        return ord(m.group(1))
    raise ValueError(f"unrecognised Rust char literal {tok}")


def fn_body(src, name):
    m = re.search(r"\n    (?:pub )?fn " + re.escape(name) + r"\b", src)
    if not m:
        raise ValueError(f"fn {name} not found")
    start = m.start()
    m2 = re.search(r"\n    \}\n", src[start:])
    if not m2:
        raise ValueError(f"end of fn {name} not found")
    return src[start:start + m2.end()]


ESC_ARM = re.compile(r"^\s*('(?:\\.|[^\\'])')\s*=>\s*text\.push\(('(?:\\x[0-9A-Fa-f]{2}|\\.|[^\\'])')\),?\s*(?://.*)?$")


def escape_table(body, fname):
    m = re.search(r"match escape_char \{\n(.*?)\n\s*_ => self\.diagnostics\.push\(LoweringDiagnostic \{\n\s*kind: LoweringDiagnosticKind::InvalidEscape,",
                  body, re.S)
    if not m:
        raise ValueError(f"{fname}: `match escape_char {{ ... _ => InvalidEscape` not found")
    rows = []
    for line in m.group(1).splitlines():
        if not line.strip():
            continue
        a = ESC_ARM.match(line)
        if not a:
            raise ValueError(f"{fname}: unrecognised escape arm: {line.strip()}")
        rows.append((rust_char(a.group(1)), rust_char(a.group(2))))
    if len(rows) < 3:
        raise ValueError(f"{fname}: suspiciously few escape arms")
    if len(set(r[0] for r in rows)) != len(rows):
        raise ValueError(f"{fname}: duplicate escape arm")
    return rows


def lean_escape_fn(name, rows):
    out = [f"def {name} (c : Nat) : Option Nat :="]
    for k, (c, v) in enumerate(rows):
        kw = "  if" if k == 0 else "  else if"
        out.append(f"{kw} c = {c} then some {v}")
    out.append("  else none")
    return "\n".join(out)


def max_expr(e):
    e = e.strip()
    if e == "None":
        return "none"
    m = re.fullmatch(r"Some\(((?:[iu]\d+)::MAX)(?: as u64)?\)", e)
    if not m:
        raise ValueError(f"get_max_int_size: unrecognised arm value `{e}`")
    return f"some {CONSTS[m.group(1)]}"


def width_pat(p):
    p = p.strip()
    if p == "u8::MAX":
        return 255
    if re.fullmatch(r"\d+", p):
        return int(p)
    raise ValueError(f"get_max_int_size: unrecognised width pattern `{p}`")


def limits_table(body, ctor):
    m = re.search(r"Ty::" + ctor + r"\(bit_width\) => match \*?bit_width \{\n(.*?)\n\s*\},", body, re.S)
    if not m:
        raise ValueError(f"get_max_int_size: arm for Ty::{ctor} not found")
    rows, default = [], None
    for line in m.group(1).splitlines():
        line = line.strip()
        if not line or line.startswith("//"):
            continue
        a = re.fullmatch(r"(.+?)\s*=>\s*(.+?),", line)
        if not a:
            raise ValueError(f"get_max_int_size: unrecognised arm `{line}`")
        if a.group(1).strip() == "_":
            default = max_expr(a.group(2))
            continue
        if default is not None:
            raise ValueError("get_max_int_size: arm after `_`")
        for p in a.group(1).split("|"):
            rows.append((width_pat(p), max_expr(a.group(2))))
    if default is None:
        raise ValueError("get_max_int_size: no `_` arm")
    return rows, default


def lean_limits_fn(name, rows, default):
    out = [f"def {name} (w : Nat) : Option Nat :="]
    for k, (w, v) in enumerate(rows):
        kw = "  if" if k == 0 else "  else if"
        out.append(f"{kw} w = {w} then {v}")
    out.append(f"  else {default}")
    return "\n".join(out)


def generate(repo, emit):
    # ---- escapes ------------------------------------------------------------------------
    body_rs = open(os.path.join(repo, "crates/hir/src/body.rs")).read()
    s_rows = escape_table(fn_body(body_rs, "lower_string_literal"), "lower_string_literal")
    c_rows = escape_table(fn_body(body_rs, "lower_char_literal"), "lower_char_literal")
    emit("Escapes.lean", "\n".join([
        "/-! GENERATED by tools/gen_literals.py from crates/hir/src/body.rs — do not edit.",
        "Escape character (code point) ↦ code point pushed, `none` = the `_ => InvalidEscape` arm. -/",
        "namespace CapyV.Generated",
        "",
        lean_escape_fn("escapeString", s_rows),
        "",
        lean_escape_fn("escapeChar", c_rows),
        "",
        "end CapyV.Generated",
        "",
    ]))

    # ---- integer limits -----------------------------------------------------------------
    ty_rs = open(os.path.join(repo, "crates/hir/src/common/ty.rs")).read()
    gm = fn_body(ty_rs, "get_max_int_size")
    if "Ty::Distinct { sub_ty: ty, .. } => ty.get_max_int_size()," not in gm:
        raise ValueError("get_max_int_size: Distinct arm changed")
    i_rows, i_def = limits_table(gm, "IInt")
    u_rows, u_def = limits_table(gm, "UInt")

    g_rs = open(os.path.join(repo, "crates/hir_ty/src/globals.rs")).read()
    m = re.search(
        r"Expr::IntLiteral\(num\) => match \*previous_ty \{\n"
        r"(?:\s*//.*\n)*\s*Ty::IInt\(0\) if \*num > ([iu]\d+::MAX) as u64 => Ty::IInt\((\d+)\)\.into\(\),\n"
        r"(?:\s*//.*\n)*\s*Ty::UInt\(0\) if \*num > ([iu]\d+::MAX) as u64 => Ty::UInt\((\d+)\)\.into\(\),\n"
        r"\s*_ => continue,\n", g_rs)
    if not m:
        raise ValueError("reinfer_expr: weak IntLiteral widening arms not found")
    i_above, i_to, u_above, u_to = CONSTS[m.group(1)], int(m.group(2)), CONSTS[m.group(3)], int(m.group(4))
    # the range check of replace_weak_tys / expect_match
    n_checks = len(re.findall(r"if let Some\(max_size\) = \w+\.get_max_int_size\(\) \{\n\s*if (?:\*)?num > max_size \{", g_rs))
    if n_checks != 2:
        raise ValueError(f"globals.rs: expected 2 `num > max_size` checks, found {n_checks}")
    if not re.search(r"\} else if global && self\.replace_weak_tys\(body, ty_i32\) \{", g_rs) or \
       "let ty_i32 = Ty::IInt(32).into();" not in g_rs:
        raise ValueError("finish_body: global weak defaulting to i32 not found")

    cv_rs = open(os.path.join(repo, "crates/codegen/src/convert.rs")).read()
    m = re.search(r"\n\s*0 => FinalTy::Number\(NumberType \{\n\s*ty: types::I(\d+),\n\s*float: false,\n\s*signed: (true|false),\n\s*\}\),", cv_rs)
    if not m:
        raise ValueError("finalize_int: arm for bit width 0 not found")
    weak_bits, weak_signed = int(m.group(1)), m.group(2)
    if "Ty::IInt(bit_width) => finalize_int(*bit_width, true)," not in cv_rs or \
       "Ty::UInt(0) => finalize_int(0, true)," not in cv_rs or \
       "Ty::UInt(bit_width) => finalize_int(*bit_width, false)," not in cv_rs:
        raise ValueError("calc_single: integer arms changed")

    tok = open(os.path.join(repo, "tokenizer.txt")).read()
    want = {
        "Int": r"/(\d[\d_]*)+([eE](\d[\d_]*)+)?/",
        "Hex": r"/0x[0-9a-fA-F]+/",
        "Bin": r"/0b[01]+/",
        "Float": r"/(\d[\d_]*)?\.(\d[\d_]*)+([eE][-+]?(\d[\d_]*)+)?/",
    }
    for name, rx in want.items():
        m2 = re.search(r"^" + name + r" = (/.*?/)\s+\|=>", tok, re.M)
        if not m2:
            raise ValueError(f"tokenizer.txt: rule {name} not found")
        if m2.group(1) != rx:
            raise ValueError(f"tokenizer.txt: rule {name} is {m2.group(1)}, Spelling.wf was written against {rx}")

    emit("IntLimits.lean", "\n".join([
        "/-! GENERATED by tools/gen_literals.py — do not edit.",
        "`getMaxIntSizeI/U`: the `Ty::IInt` / `Ty::UInt` arms of `Ty::get_max_int_size`",
        "(crates/hir/src/common/ty.rs; width 255 = isize/usize, 0 = weak).",
        "`weak*`: the IntLiteral arms of `reinfer_expr` (crates/hir_ty/src/globals.rs) and the",
        "bit-width-0 arm of `finalize_int` (crates/codegen/src/convert.rs).",
        "The literal regexes of tokenizer.txt were compared with the ones `Spelling.wf` transcribes. -/",
        "namespace CapyV.Generated",
        "",
        lean_limits_fn("getMaxIntSizeI", i_rows, i_def),
        "",
        lean_limits_fn("getMaxIntSizeU", u_rows, u_def),
        "",
        f"def weakIIntWidenAbove : Nat := {i_above}",
        f"def weakIIntWidenTo : Nat := {i_to}",
        f"def weakUIntWidenAbove : Nat := {u_above}",
        f"def weakUIntWidenTo : Nat := {u_to}",
        f"def weakFinalBits : Nat := {weak_bits}",
        f"def weakFinalSigned : Bool := {weak_signed}",
        "",
        "end CapyV.Generated",
        "",
    ]))
